"""Generator tuning and extra checks per engine property."""
from __future__ import annotations

import shutil
import tempfile
from pathlib import Path

import engine_common as EC
from vlib import rng_for

BASE = dict(n=(60, 1200))

OPTS = {
    "C01": dict(BASE, p_after=0.5, p_shared_after=0.3, after_needs_products=False, p_skip=0.03, p_persist=0.03, p_k=0.05, p_m=0.03,
                p_dry=0.05, p_prio=0.4, max_tasks=8, nprods=[1, 1, 0, 0, 2]),
    "C02": dict(BASE, n=(90, 2000), p_pyval=0.35, p_skip=0.04, p_fault=0.08, p_dry=0.08, max_builds=6, p_persist=0.06),
    "C03": dict(BASE, n=(90, 2000), p_pyval=0.3, p_skip=0.03, p_fault=0.05, p_dry=0.05, p_force=0.06, max_builds=6, min_builds=3),
    "C04": dict(BASE, nprods=[1, 2, 2, 3, 0], p_fault=0.3, p_maxfail=0.4, p_skip=0.03, p_k=0.05, p_m=0.03, p_dry=0.04, max_tasks=8, p_after=0.3,
                after_needs_products=False),
    "C06": dict(BASE, p_shared_after=0.15, p_skip=0.15, p_skipif=0.2, p_k=0.45, p_m=0.35, p_mark=0.5, p_after=0.35, after_needs_products=False,
                p_force=0.15, p_dry=0.15),
    "C08": dict(BASE, p_shared_after=0.15, nprods=[1, 2, 2, 3, 3], p_fault=0.3, p_maxfail=0.2, illformed=0.12, p_after=0.3),
    "C09": dict(BASE, illformed=0.55, p_after=0.5, p_shared_after=0.35, max_builds=3, p_fault=0.03),
    "C10": dict(BASE, p_dry=0.45, p_persist=0.2, p_force=0.12, p_k=0.12, p_skip=0.06, p_fault=0.08),
    "C17": dict(BASE, p_persist=0.45, p_force=0.15, p_skip=0.06, p_k=0.1, p_fault=0.1, max_builds=6, min_builds=3),
}


def f1_history():
    t1 = {"id": 1, "module": 1, "deps": [], "prods": [], "mver": 0, "skip": False, "skipifs": [], "persist": False, "prio": 0,
          "marks": [], "attrs": [], "after_fn": [], "after_expr": None, "use_decorator": False}
    t2 = dict(t1, id=2, prods=[103], after_fn=[1])
    cfg = {"force": False, "dry_run": False, "max_failures": None, "expression": "", "marker_expression": ""}
    return {"ops": [{"op": "build", "tasks": [t1, t2], "cfg": cfg, "faults": {}},
                    {"op": "build", "tasks": [t1, t2], "cfg": dict(cfg, expression="t2_"), "faults": {}}], "sources": []}


def f3_history():
    t1 = {"id": 1, "module": 1, "deps": [], "prods": [101], "mver": 0, "skip": False, "skipifs": [], "persist": False, "prio": 0,
          "marks": [], "attrs": [], "after_fn": [], "after_expr": "t2_", "use_decorator": False}
    t2 = dict(t1, id=2, deps=[101], prods=[102], after_expr=None)
    cfg = {"force": False, "dry_run": False, "max_failures": None, "expression": "", "marker_expression": ""}
    return {"ops": [{"op": "build", "tasks": [t1, t2], "cfg": cfg, "faults": {}}], "sources": []}


def f23_history():
    """persist task below a task with a tampered product; dry run and real build both forced"""
    tu = {"id": 1, "module": 1, "deps": [101], "prods": [105], "mver": 0, "skip": False, "skipifs": [], "persist": False, "prio": 0,
          "marks": [], "attrs": [], "after_fn": [], "after_expr": None, "use_decorator": False}
    tp = dict(tu, id=2, deps=[105], prods=[111], persist=True)
    cfg = {"force": False, "dry_run": False, "max_failures": None, "expression": "", "marker_expression": "", "capture": "no"}
    return {"ops": [{"op": "set", "n": 101, "c": 5}, {"op": "build", "tasks": [tu, tp], "cfg": cfg, "faults": {}},
                    {"op": "set", "n": 105, "c": 77},
                    {"op": "build", "tasks": [tu, tp], "cfg": dict(cfg, force=True, dry_run=True), "faults": {}},
                    {"op": "build", "tasks": [tu, tp], "cfg": dict(cfg, force=True), "faults": {}}], "sources": [101]}


def dry_limit_history():
    """a dry run with a failure limit over several stale tasks, then the real build with the same options"""
    def tk(i, deps, prods):
        return {"id": i, "module": 1, "deps": deps, "prods": prods, "mver": 0, "skip": False, "skipifs": [], "persist": False, "prio": 0,
                "marks": [], "attrs": [], "after_fn": [], "after_expr": None, "use_decorator": False}
    ts = [tk(1, [101], [111]), tk(2, [111], [112]), tk(3, [112], [113]), tk(4, [101], [114]), tk(5, [], [115])]
    cfg = {"force": False, "dry_run": False, "max_failures": 1, "expression": "", "marker_expression": "", "capture": "no"}
    return {"ops": [{"op": "set", "n": 101, "c": 5},
                    {"op": "build", "tasks": ts, "cfg": dict(cfg, dry_run=True), "faults": {}},
                    {"op": "build", "tasks": ts, "cfg": cfg, "faults": {}},
                    {"op": "set", "n": 101, "c": 6},
                    {"op": "build", "tasks": ts, "cfg": dict(cfg, dry_run=True, max_failures=2), "faults": {}},
                    {"op": "build", "tasks": ts, "cfg": dict(cfg, max_failures=2), "faults": {}}], "sources": [101]}


OPTS["C10"]["corpus"] = [f23_history(), dry_limit_history()]
for k in ("C01", "C04", "C06"):
    OPTS[k]["corpus"] = [f1_history()]
for k in ("C08", "C09"):
    OPTS[k]["corpus"] = [f3_history()]


def shared_after_history(rng):
    """Several tasks share one `after` expression which also matches one of them."""
    def tk(i, **kw):
        d = {"id": i, "module": 1, "deps": [], "prods": [100 + i], "mver": 0, "skip": False, "skipifs": [], "persist": False, "prio": 0,
             "marks": [], "attrs": [], "after_fn": [], "after_expr": None, "use_decorator": False}
        d.update(kw)
        return d
    n = rng.randint(4, 7)
    ids = list(range(1, n + 1))
    rng.shuffle(ids)
    a, b, rest = ids[0], ids[1], ids[2:]
    word, mark = rng.choice([("slow", {"marks": ["slow"]}), ("special", {"attrs": ["special"]})])
    tasks = [tk(a, after_expr=word, **mark), tk(b, **mark)]
    for r in rest:
        tasks.append(tk(r, after_expr=word if rng.random() < 0.7 else None, prio=rng.choice([0, 1, 1])))
    rng.shuffle(tasks)
    cfg = {"force": False, "dry_run": False, "max_failures": None, "expression": "", "marker_expression": "", "capture": "no"}
    return {"ops": [{"op": "build", "tasks": tasks, "cfg": cfg, "faults": {}}], "sources": []}


def c01_sorter(out, tier, seed):
    from sorter_common import run_sorter
    run_sorter(out, tier, seed, "C01", 150 if tier == "quick" else 2000, [0, 1, 2] if tier == "quick" else list(range(12)))


def c10_twin(out, tier, seed):
    """Noninterference: (dry; real) executes exactly what (real) executes from the same state."""
    rng = rng_for(seed, "c10twin")
    n = 40 if tier == "quick" else 600
    base = tempfile.mkdtemp(prefix="verifeng_C10t_")
    try:
        cases = []
        for i in range(n):
            h = EC.gen_history(rng, 2 * i, base, dict(OPTS["C10"], p_dry=0.0, min_builds=1, max_builds=3))
            # the twins run under different paths, hence different set orders; a build that stops at the first
            # failure makes the order observable (which tasks ran before the stop): no failure limit here
            for op in h["ops"]:
                if op["op"] == "build":
                    op["cfg"]["max_failures"] = None
            last = [op for op in h["ops"] if op["op"] == "build"][-1]
            ops_prefix = h["ops"][:-1] if h["ops"][-1] is last else h["ops"]
            real = dict(last, cfg=dict(last["cfg"], dry_run=False))
            dry = dict(last, cfg=dict(last["cfg"], dry_run=True))
            a = dict(h, idx=2 * i, ops=ops_prefix + [real])
            b = dict(h, idx=2 * i + 1, root=str(Path(base) / f"c{2 * i + 1}" / "p"), ops=ops_prefix + [dry, real])
            cases += [a, b]
        # F22 regression: persist task whose dependency changed; dry run and real build both forced / unforced
        for force in (True, False):
            tp = {"id": 1, "module": 1, "deps": [101], "prods": [111], "mver": 0, "skip": False, "skipifs": [], "persist": True, "prio": 0,
                  "marks": [], "attrs": [], "after_fn": [], "after_expr": None, "use_decorator": False}
            tq = dict(tp, id=2, deps=[111], prods=[112], persist=False)
            cfg = {"force": False, "dry_run": False, "max_failures": None, "expression": "", "marker_expression": "", "capture": "no"}
            pre = [{"op": "set", "n": 101, "c": 5}, {"op": "build", "tasks": [tp, tq], "cfg": cfg, "faults": {}}, {"op": "set", "n": 101, "c": 6}]
            real = {"op": "build", "tasks": [tp, tq], "cfg": dict(cfg, force=force), "faults": {}}
            dry = {"op": "build", "tasks": [tp, tq], "cfg": dict(cfg, force=force, dry_run=True), "faults": {}}
            k = len(cases)
            cases += [{"idx": k, "root": str(Path(base) / f"c{k}" / "p"), "ops": pre + [real], "sources": [101]},
                      {"idx": k + 1, "root": str(Path(base) / f"c{k + 1}" / "p"), "ops": pre + [dry, real], "sources": [101]}]
            n += 1
        obs = EC.run_impl_histories(cases, hashseed=seed % 5)
    finally:
        shutil.rmtree(base, ignore_errors=True)
    for i in range(n):
        oa, ob = obs[2 * i], obs[2 * i + 1]
        if any("raised" in o or "killed" in o for o in oa + ob):
            continue
        ea = sorted({t for a, t in oa[-1]["log"] if a == "S"})
        eb = sorted({t for a, t in ob[-1]["log"] if a == "S"})
        out.case({"twin": i, "a": ea, "b": eb}, nontrivial=bool(ea))
        out.count("twin_pairs")
        if ea != eb or oa[-1]["files"] != ob[-1]["files"]:
            out.violation("the build after a dry run executed other tasks (or left other files) than the same build without the dry run",
                          {"history_ops": cases[2 * i + 1]["ops"], "executed_without_dry": ea, "executed_after_dry": eb})


def outofstep_history(rng):
    """Several tasks share one node; after an edit only SOME of them get their rows renewed (the
    others fail, are deselected, or the build stops early); then plain builds."""
    def tk(i, **kw):
        d = {"id": i, "module": 1, "deps": [], "prods": [110 + i], "mver": 0, "skip": False, "skipifs": [], "persist": False,
             "prio": 0, "marks": [], "attrs": [], "after_fn": [], "after_expr": None, "use_decorator": False}
        d.update(kw)
        return d
    k = rng.randint(2, 4)
    via_producer = rng.random() < 0.5
    shared = 105 if via_producer else 101
    tasks = [tk(9, deps=[101], prods=[105])] if via_producer else []
    cons = list(range(1, k + 1))
    for i in cons:
        tasks.append(tk(i, deps=[shared] + ([102] if rng.random() < 0.3 else []), prio=rng.choice([0, 0, 1, -1])))
    rng.shuffle(tasks)
    cfg = {"force": False, "dry_run": False, "max_failures": None, "expression": "", "marker_expression": "", "capture": "no"}
    held = rng.sample(cons, rng.randint(1, k - 1))
    how = rng.choice(["fault", "fault_after", "select", "maxfail"])
    cfg2, faults2 = dict(cfg), {}
    if how == "fault":
        faults2 = {str(i): "raise_before" for i in held}
    elif how == "fault_after":
        faults2 = {str(i): "raise_after" for i in held}
    elif how == "select":
        keep = [i for i in cons if i not in held] + ([9] if via_producer else [])
        cfg2["expression"] = " or ".join(f"t{i}_" for i in keep)
    else:
        faults2 = {str(held[0]): "raise_before"}
        cfg2["max_failures"] = 1
    ops = [{"op": "set", "n": 101, "c": rng.randint(1, 50)}, {"op": "set", "n": 102, "c": rng.randint(1, 50)},
           {"op": "build", "tasks": tasks, "cfg": cfg, "faults": {}},
           {"op": "set", "n": 101, "c": rng.randint(51, 99)},
           {"op": "build", "tasks": tasks, "cfg": cfg2, "faults": faults2},
           {"op": "build", "tasks": tasks, "cfg": cfg, "faults": {}},
           {"op": "build", "tasks": tasks, "cfg": cfg, "faults": {}}]
    return {"ops": ops, "sources": [101, 102]}


def mem_history(rng):
    """One fresh build of a project whose tasks hand values over in files AND in memory (PythonNode
    products, ids 300-399), with raising tasks: failure containment through in-memory edges."""
    n = rng.randint(3, 7)
    tasks, avail = [], []      # avail: nodes produced so far
    nf, nm = 110, 300
    for i in range(1, n + 1):
        deps = [d for d in avail if rng.random() < 0.45][:3]
        deps = [d for d in deps if d < 300] + [d for d in deps if d >= 300]      # collection order: defaults before annotations
        if not deps and rng.random() < 0.5:
            deps = [101]
        prods = []
        if rng.random() < 0.6:
            nm += 1; prods.append(nm)
        if rng.random() < 0.6 or not prods:
            nf += 1; prods.append(nf)
        prods = [p for p in prods if p < 300] + [p for p in prods if p >= 300]
        tasks.append({"id": i, "module": 1, "deps": deps, "prods": prods, "mver": 0, "skip": False, "skipifs": [], "persist": False,
                      "prio": rng.choice([0, 0, 1, -1]), "marks": [], "attrs": [], "after_fn": [], "after_expr": None, "use_decorator": False})
        avail += prods
    cfg = {"force": False, "dry_run": False, "max_failures": rng.choice([None, None, 1, 2]), "expression": "", "marker_expression": "", "capture": "no"}
    faults = {str(t["id"]): rng.choice(["raise_before", "raise_after"]) for t in tasks if rng.random() < 0.2}
    # mostly: a failing producer whose in-memory product somebody consumes
    consumed = [t for t in tasks if any(p >= 300 and any(p in u["deps"] for u in tasks) for p in t["prods"])]
    if consumed and rng.random() < 0.8:
        faults[str(rng.choice(consumed)["id"])] = rng.choice(["raise_before", "raise_after"])
    return {"ops": [{"op": "set", "n": 101, "c": rng.randint(1, 50)}, {"op": "build", "tasks": tasks, "cfg": cfg, "faults": faults}], "sources": [101]}


def persist_shapes_history(rng):
    """persist tasks in the positions where persisting is delicate: behind an `after` edge whose
    upstream product changes, and in a chain of two persist tasks where the first one has to run again"""
    def tk(i, deps, prods, **kw):
        d = {"id": i, "module": 1, "deps": deps, "prods": prods, "mver": 0, "skip": False, "skipifs": [], "persist": False, "prio": 0,
             "marks": [], "attrs": [], "after_fn": [], "after_expr": None, "use_decorator": False}
        d.update(kw)
        return d
    cfg = {"force": False, "dry_run": False, "max_failures": None, "expression": "", "marker_expression": "", "capture": "no"}
    if rng.random() < 0.5:
        ts = [tk(1, [101], [111]), tk(2, [102], [112], persist=True, after_expr="t1_"), tk(3, [112], [113])]
        edits = [{"op": "set", "n": 101, "c": rng.randint(51, 99)}]
    else:
        ts = [tk(1, [101], [111], persist=True), tk(2, [111], [112], persist=True), tk(3, [112], [113])]
        edits = [{"op": "del", "n": 111}, {"op": "set", "n": 101, "c": rng.randint(51, 99)}]
        if rng.random() < 0.5:
            edits = edits[:1]
    rng.shuffle(ts)
    ops = [{"op": "set", "n": 101, "c": rng.randint(1, 50)}, {"op": "set", "n": 102, "c": rng.randint(1, 50)},
           {"op": "build", "tasks": ts, "cfg": cfg, "faults": {}}] + edits + [
           {"op": "build", "tasks": ts, "cfg": cfg, "faults": {}}, {"op": "build", "tasks": ts, "cfg": cfg, "faults": {}}]
    return {"ops": ops, "sources": [101, 102]}


def persist_force_fail_history(rng):
    """persist next to --force and next to a failing sibling: an edited source / a hand-edited product with
    --force (persist wins: PERSISTENCE, recorded), and a build in which the persist task is persisted while an
    unrelated task fails (the persisted states are recorded all the same: the next build is quiet)"""
    def tk(i, deps, prods, **kw):
        d = {"id": i, "module": 1, "deps": deps, "prods": prods, "mver": 0, "skip": False, "skipifs": [], "persist": False, "prio": 0,
             "marks": [], "attrs": [], "after_fn": [], "after_expr": None, "use_decorator": False}
        d.update(kw)
        return d
    cfg = {"force": False, "dry_run": False, "max_failures": None, "expression": "", "marker_expression": "", "capture": "no"}
    ts = [tk(1, [101], [111], persist=True), tk(2, [102], [112]), tk(3, [111], [113])]
    rng.shuffle(ts)
    def b(faults=None, **kw):
        return {"op": "build", "tasks": ts, "cfg": dict(cfg, **kw), "faults": faults or {}}
    ops = [{"op": "set", "n": 101, "c": rng.randint(1, 50)}, {"op": "set", "n": 102, "c": rng.randint(1, 50)}, b()]
    edit = rng.choice([{"op": "set", "n": 101, "c": rng.randint(51, 99)}, {"op": "set", "n": 111, "c": rng.randint(500, 600)}])
    if rng.random() < 0.5:
        ops += [edit, b(force=True), b()]
    else:
        # the sibling fails in the build that persists task 1
        ops += [edit, {"op": "set", "n": 102, "c": rng.randint(51, 99)}, b(faults={"2": rng.choice(["raise_before", "raise_after"])}), b(), b()]
    return {"ops": ops, "sources": [101, 102]}


def persist_grows_dry_history(rng):
    """a persist task that already has rows GAINS a dependency although its source does not change (persisted: all
    nodes exist, one has no row yet); and a dry run between the edit and the real build (a dry run records nothing:
    the real build still reports PERSISTENCE, the one after it unchanged)"""
    def tk(i, deps, prods, **kw):
        d = {"id": i, "module": 1, "deps": deps, "prods": prods, "mver": 0, "skip": False, "skipifs": [], "persist": False, "prio": 0,
             "marks": [], "attrs": [], "after_fn": [], "after_expr": None, "use_decorator": False}
        d.update(kw)
        return d
    cfg = {"force": False, "dry_run": False, "max_failures": None, "expression": "", "marker_expression": "", "capture": "no"}
    if rng.random() < 0.5:
        def proj(on):
            return [tk(1, [101] + ([102] if on else []), [111], persist=True, opt=[102], use_decorator=True), tk(2, [111], [112])]
        def b(on, **kw):
            return {"op": "build", "tasks": proj(on), "cfg": dict(cfg, **kw), "faults": {}}
        ops = [{"op": "set", "n": 101, "c": rng.randint(1, 50)}, {"op": "set", "n": 102, "c": rng.randint(1, 50)}, b(False), b(True), b(True)]
    else:
        ts = [tk(1, [101], [111], persist=True), tk(2, [111], [112])]
        def b(**kw):
            return {"op": "build", "tasks": ts, "cfg": dict(cfg, **kw), "faults": {}}
        edit = rng.choice([{"op": "set", "n": 101, "c": rng.randint(51, 99)}, {"op": "set", "n": 111, "c": rng.randint(500, 600)}])
        ops = [{"op": "set", "n": 101, "c": rng.randint(1, 50)}, b(), edit, b(dry_run=True), b(), b()]
    return {"ops": ops, "sources": [101, 102]}


OPTS["C17"]["templates"] = [persist_shapes_history, persist_force_fail_history, persist_grows_dry_history]
OPTS["C17"]["ntemplates"] = 6
def retamper_history(rng):
    """a product is overwritten by hand, the build repairs it, and it is overwritten with the SAME content again"""
    def tk(i, deps, prods):
        return {"id": i, "module": 1, "deps": deps, "prods": prods, "mver": 0, "skip": False, "skipifs": [], "persist": False, "prio": 0,
                "marks": [], "attrs": [], "after_fn": [], "after_expr": None, "use_decorator": False}
    ts = [tk(1, [101], [111]), tk(2, [111], [112]), tk(3, [112, 101], [113])]
    rng.shuffle(ts)
    cfg = {"force": False, "dry_run": False, "max_failures": None, "expression": "", "marker_expression": "", "capture": "no"}
    victim = rng.choice([111, 112, 113])
    c = rng.randint(500, 600)
    b = {"op": "build", "tasks": ts, "cfg": cfg, "faults": {}}
    return {"ops": [{"op": "set", "n": 101, "c": rng.randint(1, 50)}, b, {"op": "set", "n": victim, "c": c}, dict(b),
                    {"op": "set", "n": victim, "c": c}, dict(b), dict(b)], "sources": [101]}


def optdep_history(rng):
    """a dependency leaves the task and comes back although the module source never changes (the list of
    dependencies is computed at import time); in between the task runs without it (F28: the row of the
    departed dependency used to survive and to match again)"""
    def tk(i, deps, prods, opt=None):
        return {"id": i, "module": 1, "deps": deps, "prods": prods, "mver": 0, "skip": False, "skipifs": [], "persist": False, "prio": 0,
                "marks": [], "attrs": [], "after_fn": [], "after_expr": None, "use_decorator": bool(opt), "opt": opt or []}
    two = rng.random() < 0.5
    def proj(on):
        ts = [tk(1, [101] + ([102] if on else []), [111], opt=[102]), tk(2, [111], [112])]
        if two:
            ts.append(tk(3, [112] + ([101] if on else []), [113], opt=[101]))
        return ts
    cfg = {"force": False, "dry_run": False, "max_failures": None, "expression": "", "marker_expression": "", "capture": "no"}
    def b(on):
        return {"op": "build", "tasks": proj(on), "cfg": dict(cfg), "faults": {}}
    ops = [{"op": "set", "n": 101, "c": rng.randint(1, 50)}, {"op": "set", "n": 102, "c": rng.randint(1, 50)}, b(True)]
    if rng.random() < 0.25:
        ops += [b(False)]         # the dependency leaves and nothing else changes: F6, the statically declared sibling
    ops += [{"op": "set", "n": 101, "c": rng.randint(51, 99)}, b(False)]
    if rng.random() < 0.5:
        ops += [b(False)]
    if rng.random() < 0.3:
        ops += [{"op": "set", "n": 102, "c": rng.randint(51, 99)}]
    ops += [b(True), b(True)]
    return {"ops": ops, "sources": [101, 102]}


for k in ("C02", "C03", "C04"):
    OPTS[k]["templates"] = [outofstep_history]
def symlink_history(rng):
    """a source file is a symbolic link into a store; edits rewrite the target and leave the link alone"""
    def tk(i, deps, prods):
        return {"id": i, "module": 1, "deps": deps, "prods": prods, "mver": 0, "skip": False, "skipifs": [], "persist": False, "prio": 0,
                "marks": [], "attrs": [], "after_fn": [], "after_expr": None, "use_decorator": False}
    ts = [tk(1, [101], [111]), tk(2, [111, 102], [112])]
    rng.shuffle(ts)
    cfg = {"force": False, "dry_run": False, "max_failures": None, "expression": "", "marker_expression": "", "capture": "no"}
    b = {"op": "build", "tasks": ts, "cfg": cfg, "faults": {}}
    ops = [{"op": "set", "n": 101, "c": rng.randint(1, 50), "link": True}, {"op": "set", "n": 102, "c": rng.randint(1, 50)}, dict(b)]
    for _ in range(rng.randint(1, 3)):
        ops += [{"op": "set", "n": 101, "c": rng.randint(51, 99), "link": True}, dict(b)]
    ops += [dict(b)]
    return {"ops": ops, "sources": [101, 102]}


for k in ("C02", "C03"):
    OPTS[k]["templates"] = OPTS[k]["templates"] + [retamper_history, optdep_history, symlink_history]
    OPTS[k]["ntemplates"] = 6
for k in ("C04", "C01", "C08"):
    OPTS[k]["templates"] = OPTS[k].get("templates", []) + [mem_history]


def dry_after_history(rng):
    """`after` is an edge from the products of the other task: when that task would be executed, the task
    that waits for it would be executed as well (its recorded row for the product will not match any more),
    and so would everything below it; edit, dry run, real build"""
    def tk(i, deps, prods, after=None):
        return {"id": i, "module": 1, "deps": deps, "prods": prods, "mver": 0, "skip": False, "skipifs": [], "persist": False, "prio": 0,
                "marks": [], "attrs": [], "after_fn": [], "after_expr": after, "use_decorator": False}
    ts = [tk(1, [101], [111]), tk(2, [102], [112], after="t1_"), tk(3, [112], [113])]
    if rng.random() < 0.5:
        ts.append(tk(4, [113, 102], [114], after="t3_" if rng.random() < 0.5 else None))
    rng.shuffle(ts)
    cfg = {"force": False, "dry_run": False, "max_failures": None, "expression": "", "marker_expression": "", "capture": "no"}
    def b(**kw):
        return {"op": "build", "tasks": ts, "cfg": dict(cfg, **kw), "faults": {}}
    ops = [{"op": "set", "n": 101, "c": rng.randint(1, 50)}, {"op": "set", "n": 102, "c": rng.randint(1, 50)}, b()]
    for _ in range(rng.randint(1, 2)):
        ops += [{"op": "set", "n": rng.choice([101, 101, 102]), "c": rng.randint(51, 99)}, b(dry_run=True), b()]
    return {"ops": ops, "sources": [101, 102]}


OPTS["C10"]["templates"] = OPTS["C10"].get("templates", []) + [dry_after_history]
OPTS["C10"]["ntemplates"] = 5

EXTRA = {"C01": [c01_sorter], "C10": [c10_twin]}

import random as _random
_r = _random.Random(12345)
OPTS["C01"]["corpus"] = OPTS["C01"]["corpus"] + [shared_after_history(_r) for _ in range(25)]
