"""C08 scenarios that the generated projects cannot express: tasks handed to pytask.build(tasks=[...]) and
PythonNode products that a task may or may not set. One scenario per fresh interpreter."""
import json
import os
import sys
import tempfile
import textwrap
from pathlib import Path


def observe(session, extra=None):
    tasks = [t.name for t in getattr(session, "tasks", [])]
    reps = [(r.task.name, r.outcome.name) for r in getattr(session, "execution_reports", [])]
    return {"exit": int(session.exit_code), "tasks": tasks, "reports": reps, "extra": extra or {}}


def main():
    req = json.load(sys.stdin)
    real = os.dup(1)
    os.dup2(os.open(os.devnull, os.O_WRONLY), 1)
    import pytask
    from pytask import Product, PythonNode
    from typing import Annotated
    d = Path(tempfile.mkdtemp(prefix="verif_c08x_"))
    (d / "pyproject.toml").write_text("[tool.pytask.ini_options]\n")
    kind = req["kind"]
    ran = []
    try:
        if kind in ("dup_closures", "distinct_closures"):
            def make(i, name):
                def fn(produces=d / f"o{i}.txt"):
                    ran.append(i); produces.write_text("x")
                fn.__name__ = name
                return fn
            fs = [make(0, "task_x"), make(1, "task_x" if kind == "dup_closures" else "task_y")]
            s = pytask.build(tasks=fs, paths=[d])
            res = observe(s, {"ran": ran})
        elif kind == "task_and_path":
            (d / "task_m.py").write_text(textwrap.dedent("""
                from pathlib import Path
                def task_z(produces=Path(__file__).parent / "z.txt"):
                    produces.write_text("z")
            """))
            sys.path.insert(0, str(d))
            import importlib
            m = importlib.import_module("task_m")
            s = pytask.build(tasks=[m.task_z], paths=[d])
            res = observe(s)
        elif kind in ("gen_collect_error", "gen_collect_ok"):
            bad = kind == "gen_collect_error"
            (d / "in").mkdir()
            (d / "in" / "x.txt").write_text("x")
            (d / "task_g.py").write_text(textwrap.dedent(f"""
                from pathlib import Path
                from typing import Annotated
                from pytask import Product, task, DirectoryNode
                ROOT = Path(__file__).parent
                @task(is_generator=True)
                def task_gen(files: Annotated[list[Path], DirectoryNode(root_dir=ROOT / "in", pattern="*.txt")]):
                    for f in files:
                        @task(id=f.stem)
                        def child(src: Path = f, out: Annotated[Path, Product] = ROOT / (f.stem + ".out")):
                            out.write_text(src.read_text())
                    # a second task; in the faulty variant the value of one parameter is given twice (default and kwargs)
                    @task(id="second")
                    def child(src: Path = ROOT / "in" / "x.txt", out: Annotated[Path, Product{', 42' if bad else ''}] = ROOT / "second.out"{', both: Annotated[Path, Product, Product] = 3' if bad else ''}):
                        out.write_text(src.read_text())
            """))
            s = pytask.build(paths=[d])
            res = observe(s, {"second_out": (d / "second.out").exists(), "x_out": (d / "x.out").exists()})
        elif kind in ("pynode_unset", "pynode_set", "pynode_unset_hash"):
            node = PythonNode(name="handover", hash=(kind == "pynode_unset_hash"))
            def task_make(n: Annotated[PythonNode, node, Product], flag: bool = (kind == "pynode_set")):
                ran.append("make")
                if flag:
                    n.save(41)
            def task_use(v: Annotated[int, node], produces=d / "use.txt"):
                ran.append("use"); produces.write_text(repr(v))
            s = pytask.build(tasks=[task_make, task_use], paths=[d])
            from _pytask.typing import no_default
            res = observe(s, {"ran": ran, "node_set": node.value is not no_default,
                              "use_txt": (d / "use.txt").read_text() if (d / "use.txt").exists() else None})
        else:
            res = {"error": "unknown scenario"}
    except BaseException as e:  # noqa: BLE001
        res = {"raised": repr(e)}
    sys.stdout.flush()
    os.dup2(real, 1)
    import shutil
    shutil.rmtree(d, ignore_errors=True)
    json.dump(res, sys.stdout)


if __name__ == "__main__":
    main()
