"""Build a one-task project whose task carries try_first and try_last."""
import json, os, sys, tempfile, shutil, io, contextlib
from pathlib import Path

d = Path(tempfile.mkdtemp(prefix="verif_c19_"))
try:
    (d / "task_m.py").write_text(
        "import pytask\nfrom pathlib import Path\n"
        "@pytask.mark.try_first\n@pytask.mark.try_last\n"
        "def task_a(produces=Path('out.txt')):\n    produces.write_text('x')\n")
    import pytask
    buf = io.StringIO()
    with contextlib.redirect_stdout(buf):
        s = pytask.build(paths=[d], capture="no")
    json.dump({"exit_code": int(s.exit_code), "executed": (d / "out.txt").exists()}, sys.stdout)
finally:
    shutil.rmtree(d, ignore_errors=True)
