"""Build a one-task project whose task carries try_first and try_last."""
import json, os, sys, tempfile, shutil, io, contextlib
from pathlib import Path

d = Path(tempfile.mkdtemp(prefix="verif_c19_"))
try:
    (d / "task_m.py").write_text(
        "import pytask\nfrom pathlib import Path\n"
        "@pytask.mark.try_first\n@pytask.mark.try_last\n"
        "def task_a(produces=Path('out.txt')):\n    produces.write_text('x')\n")
    import pytask
    buf = io.StringIO()
    with contextlib.redirect_stdout(buf):
        s = pytask.build(paths=[d], capture="no")
    res = {"exit_code": int(s.exit_code), "executed": (d / "out.txt").exists()}
    # the same for a task that is not a decorated function: a task object handed over through build(tasks=[...])
    from pytask import Mark, PathNode, TaskWithoutPath
    d2 = d / "obj"
    d2.mkdir()
    (d2 / "pyproject.toml").write_text("[tool.pytask.ini_options]\n")

    def f(produces=d2 / "o.txt"):
        produces.write_text("x")
    t = TaskWithoutPath(name="both", function=f, markers=[Mark("try_first", (), {}), Mark("try_last", (), {})],
                        produces={"produces": PathNode(path=d2 / "o.txt")})
    with contextlib.redirect_stdout(buf):
        s2 = pytask.build(tasks=[t], paths=[d2], capture="no")
    res["object_exit_code"] = int(s2.exit_code)
    res["object_executed"] = (d2 / "o.txt").exists()
    json.dump(res, sys.stdout)
finally:
    shutil.rmtree(d, ignore_errors=True)
