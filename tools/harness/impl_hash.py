"""Implementation side of the C12 correspondence (JSON in/out)."""
import inspect
import json
import os
import shutil
import sys
import tempfile
from pathlib import Path

from _pytask._hashlib import hash_value
from _pytask.cache import _make_memoize_key
from _pytask.models import NodeInfo
from _pytask.nodes import DirectoryNode, PathNode, PickleNode, PythonNode, Task, TaskWithoutPath
from _pytask.path import HashPathCache, hash_path


def dec(v):
    k = v[0]
    if k == "none":
        return None
    if k == "bool":
        return bool(v[1])
    if k == "int":
        return int(v[1])
    if k == "float":
        return float.fromhex(v[1])
    if k == "str":
        return v[1]
    if k == "bytes":
        return bytes.fromhex(v[1])
    if k == "path":
        return Path(v[1])
    if k == "tuple":
        return tuple(dec(x) for x in v[1])
    if k == "list":
        return [dec(x) for x in v[1]]
    raise ValueError(k)


def out(h):
    return h if isinstance(h, str) else ["int", str(h)]


def main():
    req = json.load(sys.stdin)
    res = {}
    if "values" in req:
        r = []
        for v in req["values"]:
            pv = dec(v)
            try:
                r.append({"h": out(hash_value(pv)), "pyhash": _pyhash(pv)})
            except Exception as e:  # noqa: BLE001
                r.append({"error": repr(e)})
        res["values"] = r
    if "floats" in req:
        res["floats"] = [str(hash(float.fromhex(f))) for f in req["floats"]]
    if "sigs" in req:
        r = []
        for s in req["sigs"]:
            k = s[0]
            if k == "path":
                r.append(PathNode(path=Path(s[1])).signature)
            elif k == "pickle":
                r.append(PickleNode(path=Path(s[1])).signature)
            elif k == "task":
                r.append(Task(base_name=s[1], path=Path(s[2]), function=lambda: None).signature)
            elif k == "taskwp":
                r.append(TaskWithoutPath(name=s[1], function=lambda: None).signature)
            elif k == "dir":
                r.append(DirectoryNode(root_dir=Path(s[1]) if s[1] is not None else None, pattern=s[2]).signature)
            elif k == "python":
                ni = NodeInfo(arg_name=s[1], path=tuple(dec(x) for x in s[2]), task_name=s[3], task_path=Path(s[4]), value=None)
                r.append(PythonNode(node_info=ni).signature)
        res["sigs"] = r
    if "memo" in req:
        argspec = inspect.getfullargspec(hash_path.__wrapped__)
        prefix = f"{hash_path.__wrapped__.__module__}.{hash_path.__wrapped__.__name__}:"
        res["memo_prefix"] = prefix
        res["memo"] = [_make_memoize_key((Path(p), float.fromhex(m)), {}, typed=False, argspec=argspec, prefix=prefix)
                       for p, m in req["memo"]]
    if "states" in req:
        # sequences of (name, mtime_ns, content_hex | None) against real files
        r = []
        d = Path(tempfile.mkdtemp(prefix="verif_c12_"))
        try:
            for si, seq in enumerate(req["states"]):
                try:
                    HashPathCache._cache.clear()
                except Exception:       # a changed cache: fresh file names per sequence below
                    pass
                o = []
                for spelling, name, mtime_ns, content in seq:
                    p = d / f"s{si}_{name}"
                    name = p.name
                    if content is None:
                        p.unlink(missing_ok=True)
                    else:
                        p.write_bytes(bytes.fromhex(content))
                        os.utime(p, ns=(mtime_ns, mtime_ns))
                    q = {"plain": p, "dot": d / "." / name, "updown": d / "x" / ".." / name}[spelling]
                    if spelling == "updown":
                        (d / "x").mkdir(exist_ok=True)
                    o.append([PathNode(path=q).state(), p.stat().st_mtime.hex() if p.exists() else None])
                r.append(o)
                for f in d.iterdir():
                    if f.is_file():
                        f.unlink()
        finally:
            shutil.rmtree(d, ignore_errors=True)
        res["states"] = r
    if "cwd_sigs" in req:
        # signatures of the same absolute paths computed from different working directories
        d = Path(tempfile.mkdtemp(prefix="verif_c12w_"))
        try:
            (d / "sub" / "deep").mkdir(parents=True)
            rels = ["a.txt", "sub/a.txt", "sub/deep/a.txt", "b.txt"]
            out_ = {}
            for cwd in [d, d / "sub", d / "sub" / "deep", Path("/")]:
                os.chdir(cwd)
                row = {}
                for r_ in rels:
                    p_ = d / r_
                    row[r_] = [PathNode(path=p_).signature, PickleNode(path=p_).signature,
                               Task(base_name="task_x", path=p_.with_suffix(".py"), function=lambda: None).signature,
                               DirectoryNode(root_dir=p_.parent, pattern="*.txt").signature]
                out_[str(cwd.relative_to(d)) if cwd != Path("/") else "/"] = row
            res["cwd_sigs"] = out_
        finally:
            os.chdir("/")
            shutil.rmtree(d, ignore_errors=True)
    if "collect" in req:
        res["collect"] = collect_cases(req["collect"])
    json.dump(res, sys.stdout)


def collect_cases(cases):
    """Each case: list of declarations (subdir, kind, decl); decl may contain {R} for the project
    root. One project per case; returns for each declaration the collected path ({R}-relative
    spelling) and signature."""
    import subprocess
    out = []
    base = Path(tempfile.mkdtemp(prefix="verif_c12c_"))
    try:
        for ci, decls in enumerate(cases):
            root = base / f"p{ci}"
            root.mkdir()
            (root / "pyproject.toml").write_text("[tool.pytask.ini_options]\n")
            bydir = {}
            for i, (sub, kind, decl) in enumerate(decls):
                bydir.setdefault(sub, []).append((i, kind, decl.replace("{R}", str(root))))
            for sub, items in bydir.items():
                d = root / sub
                d.mkdir(parents=True, exist_ok=True)
                lines = ["from pathlib import Path", "from typing import Annotated", "from pytask import PathNode, PickleNode, Product", ""]
                for i, kind, decl in items:
                    if kind == "path":
                        arg = f"p: Annotated[Path, Product] = Path({decl!r})"
                    elif kind == "node":
                        arg = f"p: Annotated[Path, PathNode(path=Path({decl!r})), Product]"
                    else:
                        arg = f"p: Annotated[Path, PickleNode(path=Path({decl!r})), Product]"
                    lines += [f"def task_d{i}({arg}):", "    pass", ""]
                (d / "task_decl.py").write_text("\n".join(lines))
            code = ("import json, pytask\nfrom pathlib import Path\n"
                    f"s = pytask.build(paths=[Path({str(root)!r})], dry_run=True)\n"
                    "r = {}\n"
                    "for t in s.tasks:\n"
                    "    n = t.produces['p']\n"
                    "    r[t.name.split('::')[-1]] = [str(n.path), n.signature]\n"
                    "print('RESULT' + json.dumps({'exit': int(s.exit_code), 'nodes': r}))\n")
            p = subprocess.run([sys.executable, "-c", code], capture_output=True, text=True, cwd=root)
            line = [l for l in p.stdout.splitlines() if l.startswith("RESULT")]
            if not line:
                out.append({"error": (p.stdout + p.stderr)[-800:]})
                continue
            r = json.loads(line[-1][6:])
            r["nodes"] = {k: [v[0].replace(str(root), "/R"), v[1]] for k, v in r["nodes"].items()}
            out.append(r)
    finally:
        shutil.rmtree(base, ignore_errors=True)
    return out


def _pyhash(v):
    try:
        return str(hash(v)) if not isinstance(v, (list,)) else None
    except TypeError:
        return None


if __name__ == "__main__":
    main()
