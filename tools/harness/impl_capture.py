"""Implementation side of C14: real builds of generated projects whose tasks write tagged
payloads through print, os.write and child processes; the build's own stdout/stderr are pipes."""
import json
import shutil
import subprocess
import sys
import tempfile
from pathlib import Path

TASK = '''
def task_{i}():
    import os, sys, subprocess
    for stream, level, text, flush in {writes!r}:
        f = sys.stdout if stream == "out" else sys.stderr
        fd = 1 if stream == "out" else 2
        if level == "py":
            f.write(text)
            if flush:
                f.flush()
        elif level == "fd":
            if {sync!r}:
                f.flush()
            os.write(fd, text.encode())
        else:
            if {sync!r}:
                f.flush()
            subprocess.run([sys.executable, "-c",
                            "import sys; s = sys.stdout if %r == 'out' else sys.stderr; s.write(%r); s.flush()" % (stream, text)],
                           check=True)
    sys.stdout.flush(); sys.stderr.flush()
    if {restore!r}:
        # a task that ends with the interpreter's original stream objects in place (what code does after a
        # temporary redirection of its own): it is the capture's business to be in place again for the next task
        sys.stdout = sys.__stdout__
        sys.stderr = sys.__stderr__
    if {fail!r}:
        raise RuntimeError("boom")
'''

DRIVER = '''
import json, sys
from pathlib import Path
import pytask
s = pytask.build(paths=[Path({proj!r})], capture={method!r})
rep = []
for r in s.execution_reports:
    rep.append({{"task": r.task.name.split("::")[-1], "outcome": r.outcome.name,
                 "sections": [list(x) for x in r.sections]}})
Path({proj!r}, "result.json").write_text(json.dumps({{"exit": int(s.exit_code), "reports": rep}}))
'''


def run(case, base):
    proj = base / "proj"
    if proj.exists():
        shutil.rmtree(proj)
    proj.mkdir()
    src = ["import pytask"]
    for i, t in enumerate(case["tasks"]):
        if i > 0 and case.get("chain", True):      # chain the tasks so that they run in order
            src.append(f"@pytask.task(after=task_{i-1}, produces=__import__('pathlib').Path(__file__).parent / 'o{i}.txt')")
        else:
            src.append(f"@pytask.task(produces=__import__('pathlib').Path(__file__).parent / 'o{i}.txt')")
        # in fd mode Python-level and descriptor-level writes end in one capture file: their order must be kept
        # without any flush; in the other modes the process's own buffering decides the order on the real stream
        body = TASK.format(i=i, writes=[tuple(w) for w in t["writes"]], fail=False, sync=case["method"] != "fd", restore=bool(t.get("restore")))
        # the product must exist for a successful task
        # @task(produces=path): the returned string is stored in the product
        body = body.replace("    if False:\n        raise RuntimeError(\"boom\")\n",
                            f"    if {t['fail']!r}:\n        raise RuntimeError(\"boom\")\n    return 'x'\n")
        src.append(body)
    (proj / "task_cap.py").write_text("\n".join(src))
    import os
    env = dict(os.environ)
    env.pop("PYTHONUNBUFFERED", None)       # buffering as in an ordinary interpreter
    p = subprocess.run([sys.executable, "-c", DRIVER.format(proj=str(proj), method=case["method"])],
                       capture_output=True, cwd=proj, env=env)
    out = {"stdout": p.stdout.decode("utf-8", "replace"), "stderr": p.stderr.decode("utf-8", "replace"), "rc": p.returncode}
    f = proj / "result.json"
    out["result"] = json.loads(f.read_text()) if f.exists() else None
    return out


def main():
    cases = json.load(sys.stdin)
    base = Path(tempfile.mkdtemp(prefix="verif_c14_"))
    try:
        res = [run(c, base) for c in cases]
    finally:
        shutil.rmtree(base, ignore_errors=True)
    json.dump(res, sys.stdout)


if __name__ == "__main__":
    main()
