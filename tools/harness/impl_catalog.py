"""Implementation side of the C20 correspondence."""
import json
import pickle
import shutil
import subprocess
import sys
import tempfile
from pathlib import Path

from _pytask.data_catalog import DataCatalog


def main():
    req = json.load(sys.stdin)
    res = {}
    d = Path(tempfile.mkdtemp(prefix="verif_c20_"))
    try:
        (d / "pyproject.toml").write_text("[tool.pytask.ini_options]\n")
        if "names" in req:
            r = []
            for n in req["names"]:
                try:
                    DataCatalog(name=n, instance_path=d)
                    r.append("ok")
                except ValueError:
                    r.append("rejected")
                except Exception as e:  # noqa: BLE001
                    r.append("error:" + type(e).__name__)
            res["names"] = r
        if "entries" in req:
            r = []
            for cname, ename in req["entries"]:
                c = DataCatalog(name=cname, instance_path=d)
                node = c[ename]
                occupied = node.path.exists()        # nothing has been stored yet: the location must be free
                p1 = str(node.path.relative_to(d))
                c2 = DataCatalog(name=cname, instance_path=d)     # re-opened: must reload the same node
                p2 = str(c2[ename].path.relative_to(d))
                files = sorted(str(p.relative_to(d)) for p in (d / ".pytask" / "data_catalogs" / cname).glob("*"))
                r.append({"path": p1, "reopened": p2, "n_files": len(files), "occupied": occupied})
            res["entries"] = r
        if "cwd_locations" in req:
            # a catalog declared in a module of a project WITHOUT configuration file or repository: where its entries
            # live must not depend on the directory the session was started from
            d_plain = Path(tempfile.mkdtemp(prefix="verif_c20p_"))      # no configuration file anywhere above
            proj = d_plain / "plain" / "project"
            (proj / "pkg").mkdir(parents=True)
            (proj / "pkg" / "config.py").write_text("from pytask import DataCatalog\ncat = DataCatalog(name='c')\nprint('LOC', cat.path, cat['x'].path)\n")
            locs = {}
            for cwd in (proj / "pkg", proj, proj.parent, Path("/")):
                q = subprocess.run([sys.executable, "-c", f"import sys; sys.path.insert(0, {str(proj / 'pkg')!r}); import config"],
                                   capture_output=True, text=True, cwd=cwd)
                line = [l for l in q.stdout.splitlines() if l.startswith("LOC")]
                locs[str(cwd.relative_to(d_plain)) if cwd != Path("/") else "/"] = line[-1].replace(str(d_plain), "") if line else "error: " + q.stderr[-300:]
            res["cwd_locations"] = locs
            shutil.rmtree(d_plain, ignore_errors=True)
        if "roundtrip" in req:
            # sessions: producer writes values into entries, consumers read them in this and a later build
            proj = d / "proj"
            proj.mkdir()
            (proj / "pyproject.toml").write_text("[tool.pytask.ini_options]\n")
            vals = req["roundtrip"]
            (proj / "config.py").write_text(
                "from pytask import DataCatalog\n" + "".join(f"cat{i} = DataCatalog(name={c!r})\n" for i, c in enumerate(vals["catalogs"])))
            code = ("import sys, json, pytask\nfrom pathlib import Path\n"
                    f"s = pytask.build(paths=[Path({str(proj)!r})])\n"
                    "print(json.dumps({'exit': int(s.exit_code), 'out': [(r.task.name, r.outcome.name) for r in s.execution_reports]}))\n")
            def render(items):
                # every entry has two consumers; each writes down what it received and then works on the value in place
                lines = ["from typing import Annotated", "from pathlib import Path", "import json", "from config import *", "",
                         "def _use(x):", "    if isinstance(x, list):", "        x.append('used')", "    elif isinstance(x, dict):", "        x['used'] = 1", ""]
                for j, (ci, ename, val) in enumerate(items):
                    lines += [f"def task_p{j}() -> Annotated[object, cat{ci}[{ename!r}]]:", f"    return {val}", ""]
                    for k, stem in (("c", "out"), ("d", "outd")):
                        lines += [f"def task_{k}{j}(x: Annotated[object, cat{ci}[{ename!r}]], out: Annotated[Path, __import__('pytask').Product] = Path(__file__).parent / '{stem}{j}.json'):",
                                  f"    out.write_text(json.dumps(repr(x)))", "    _use(x)", ""]
                return "\n".join(lines)

            def build_once():
                p = subprocess.run([sys.executable, "-c", code], capture_output=True, text=True, cwd=proj)
                try:
                    return json.loads(p.stdout.strip().splitlines()[-1])
                except Exception:  # noqa: BLE001
                    return {"exit": -1, "stderr": p.stderr[-1500:], "stdout": p.stdout[-1500:]}

            def outs_now(n, stem="out"):
                o = []
                for j in range(n):
                    f = proj / f"{stem}{j}.json"
                    o.append(json.loads(f.read_text()) if f.exists() else None)
                return o
            (proj / "task_rt.py").write_text(render(vals["items"]))
            runs = [build_once(), build_once()]
            outs = outs_now(len(vals["items"]))
            res["roundtrip"] = {"runs": runs, "outs": outs, "outsd": outs_now(len(vals["items"]), "outd")}
            if vals.get("items2"):
                # the producers now return other values (some equal under == but of another type)
                (proj / "task_rt.py").write_text(render(vals["items2"]))
                runs2 = [build_once()]
                res["roundtrip"]["runs2"] = runs2
                res["roundtrip"]["outs2"] = outs_now(len(vals["items2"]))
                res["roundtrip"]["outsd2"] = outs_now(len(vals["items2"]), "outd")
    finally:
        shutil.rmtree(d, ignore_errors=True)
    json.dump(res, sys.stdout)


if __name__ == "__main__":
    main()
