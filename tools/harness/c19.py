"""C19: priorities among ready tasks (scheduler model vs real TopologicalSorter)."""
import subprocess, json
from vlib import PY, impl_env, run_impl_worker
from sorter_common import run_sorter

TRUSTED = ["Coq kernel, vm_compute", "networkx ancestors = graph reachability (closure compared on every case)",
           "harness + direct oracle", "pluggy/has_mark as used by _extract_priorities_from_tasks"]


def run(out, tier, seed, proof):
    n = 250 if tier == "quick" else 2500
    seeds = [0, 1, 2, 3] if tier == "quick" else list(range(16))
    run_sorter(out, tier, seed, "C19", n, seeds)
    # both marks on one task must be rejected at collection
    r = run_impl_worker("impl_both_marks.py", {})
    out.evaluations += 1
    out.coverage["both_marks_exit_code"] = r["exit_code"]
    if r["exit_code"] != 3 or r["executed"]:
        out.violation("a task marked try_first and try_last is not rejected at collection", r)
    if r.get("object_exit_code") == 0 or r.get("object_executed"):
        out.violation("a task object that carries try_first and try_last was accepted, scheduled and executed", r)
    out.assumptions += ["set iteration order is arbitrary (model quantifies over every order; implementation sampled over hash seeds)"]
