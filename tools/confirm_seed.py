#!/venv/bin/python
"""Confirm a seeded change and store it under /verif/seeded/<id>/.
usage: confirm_seed.py <seed dir with patch.diff, demo.py, notes.txt> <id> <property> [checks...]"""
import json
import os
import shutil
import subprocess
import sys
from pathlib import Path

src, sid, prop = Path(sys.argv[1]), sys.argv[2], sys.argv[3]
checks = sys.argv[4:] or [prop]
wt = Path(os.environ.get("CONFIRM_WT", "/tmp/confirm_wt"))      # several confirmations can run side by side
BASE = Path(str(wt) + "_base.json")
log = {}


def sh(cmd, **kw):
    p = subprocess.run(cmd, shell=True, capture_output=True, text=True, **kw)
    return p.returncode, (p.stdout + p.stderr)[-1500:]


def demo(srcdir):
    """Some seeded changes show only under some set orders: the demo runs under hash seeds 0-3; it
    counts as failing (non-zero) if it fails under any of them, as passing if it passes under all."""
    last = (0, "")
    for hs in ("0", "1", "2", "3"):
        env = dict(os.environ, PYTASK_SRC=str(srcdir), PYTHONPATH=str(srcdir), PYTHONHASHSEED=hs)
        rc, o = sh(f"/venv/bin/python {src / 'demo.py'}", env=env, timeout=900)
        last = (rc, f"[PYTHONHASHSEED={hs}] " + o)
        if rc != 0:
            return last
    return last

sh(f"git -C /repo worktree remove --force {wt}")
rc, o = sh(f"git -C /repo worktree add -f {wt} HEAD")
def missing(out):
    return sorted(l.split()[-1] for l in out.splitlines() if "MISSING" in l)

try:
    head = sh("git -C /repo rev-parse HEAD")[1].strip()
    if BASE.exists() and json.loads(BASE.read_text())["head"] == head:
        base_missing = json.loads(BASE.read_text())["missing"]
    else:
        # tests that fail on an UNCHANGED worktree at this path (snapshots that pin absolute paths)
        base_missing = missing(subprocess.run(f"/venv/bin/python /verif/tools/baseline.py {wt}", shell=True, capture_output=True, text=True).stdout)
        BASE.write_text(json.dumps({"head": head, "missing": base_missing}))
    log["demo_unchanged"] = demo("/repo/src")
    rc, o = sh(f"git -C {wt} apply {src / 'patch.diff'}")
    log["apply"] = (rc, o)
    log["demo_changed"] = demo(wt / "src")
    full = subprocess.run(f"/venv/bin/python /verif/tools/baseline.py {wt}", shell=True, capture_output=True, text=True).stdout
    new_missing = [m for m in missing(full) if m not in base_missing]
    log["suite_changed"] = (1 if new_missing else 0, f"{full.strip().splitlines()[0]}; path-dependent tests failing on the unchanged worktree too: {base_missing}; newly failing: {new_missing}")
finally:
    sh(f"git -C /repo worktree remove --force {wt}")
ok = log["demo_unchanged"][0] == 0 and log["apply"][0] == 0 and log["demo_changed"][0] != 0 and log["suite_changed"][0] == 0
print(json.dumps({k: (v[0], v[1][-300:]) for k, v in log.items()}, indent=1))
print("CONFIRMED" if ok else "NOT CONFIRMED")
if ok:
    dst = Path("/verif/seeded") / sid
    dst.mkdir(parents=True, exist_ok=True)
    shutil.copy(src / "patch.diff", dst / "patch.diff")
    shutil.copy(src / "demo.py", dst / "demo.py")
    notes = (src / "notes.txt").read_text() if (src / "notes.txt").exists() else ""
    (dst / "meta.json").write_text(json.dumps({
        "id": sid, "property": prop, "needs_to_manifest": notes[:1500],
        "confirmed": {"demo_on_unchanged_tree_exit": log["demo_unchanged"][0], "demo_on_changed_tree_exit": log["demo_changed"][0],
                      "demo_output_changed": log["demo_changed"][1][-400:], "suite_on_changed_tree": log["suite_changed"][1][-200:]},
        "what_was_run": ["demo.py with PYTASK_SRC=/repo/src", "git apply patch.diff in a scratch worktree", "demo.py with PYTASK_SRC=<worktree>/src",
                         "tools/baseline.py <worktree> (641 stable tests)"],
        "checks_to_run": checks,
    }, indent=1))
sys.exit(0 if ok else 1)
