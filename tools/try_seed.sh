#!/bin/sh
# usage: try_seed.sh <patch> <prop> [tier]  -- apply a seeded change to /repo, run the check, undo.
set -u
P="$1"; PROP="$2"; TIER="${3:-quick}"
cd /repo || exit 2
git diff --quiet || { echo "repo not clean"; exit 2; }
git apply "$P" || { echo "patch does not apply"; exit 2; }
cd /verif && /venv/bin/python tools/check.py "$PROP" --tier "$TIER" 2>&1 | tail -4 | cut -c1-260
git -C /repo checkout -- . 
git -C /repo status --short | head -3
