#!/venv/bin/python
"""Writes MANIFEST.json from the table below (kept in one place so it stays valid)."""
import json
from pathlib import Path

V = Path(__file__).resolve().parents[1]
props = [json.loads(l) for l in (V / "properties.jsonl").read_text().splitlines() if l.strip()]

CLAIMS = {
    "C19": dict(
        text="Coq theorems over Model/Sorter.v for every scheduler state (arbitrary closure graph, processing/done sets) and every set-iteration order: the sort-and-slice algorithm returns a valid batch (the n best ready tasks, best last); nothing left behind outranks anything handed out; try_first before lower priorities, try_last only when nothing better is ready; a handed-out task has no remaining predecessor. Tied to the code by trace validation: the real TopologicalSorter is driven by random get_ready(n)/done/from_dag_and_sorter scripts over random bipartite DAGs under several hash seeds and every returned batch must be accepted by the model's valid_batchb (proved equivalent to valid_batch); closure graphs compared; a direct oracle restates the property on each trace. Rejection of try_first+try_last is exercised end-to-end.",
        note="trusted: Coq kernel + vm_compute; networkx reachability (closure compared per case); harness and oracle; hash seeds sample set orders on the implementation side while the theorem covers all orders.",
        technique="Coq proof (invariants over arbitrary scheduler states; insertion-sort/top-n lemma) + trace validation of the real scheduler via vm_compute",
        design="5/C19"),
    "C16": dict(
        text="Coq theorems over Model/Expr.v: the compiler accepts exactly the documented grammar on the unique maximal-munch tokenisation, the denoted formula is unique, keywords only as whole identifiers, matchers = substring/exact membership, no third outcome (no fuel exhaustion). Tied to the code by an exhaustive small-scope sweep (all concatenations of <=5/<=7 lexemes under all truth assignments) plus seeded random expressions, mutations, character soup and matcher runs evaluated both in Coq (vm_compute) and by the implementation.",
        note="trusted: Coq kernel + vm_compute; the correspondence harness; CPython's \\w/str.lower tables read at run time; Python's eval of and/or/not on bools. Interpreter recursion limits are outside the model (known findings F12).",
        technique="Coq proof (soundness+completeness of a fuelled recursive-descent parser against an inductive grammar) + exhaustive/random correspondence via vm_compute",
        design="5/C16"),
}

checks, na = [], []
for p in props:
    pid = p["id"]
    if pid in CLAIMS:
        c = CLAIMS[pid]
        checks.append({
            "property_id": pid,
            "quick_cmd": f"/venv/bin/python tools/check.py {pid} --tier quick",
            "thorough_cmd": f"/venv/bin/python tools/check.py {pid} --tier thorough",
            "evidence_file": f"/verif/evidence/{pid}.json",
            "replay_cmd_template": f"/venv/bin/python tools/check.py {pid} --replay {{path}}",
            "engine": "coq-model+correspondence",
            "level_claimed": {"category": c.get("category", "proof"), "text": c["text"], "design_ref": c["design"]},
            "level_note": c["note"],
            "technique": c["technique"],
        })
    else:
        na.append({"property_id": pid, "reason": "not built yet in this round (model and check planned in DESIGN.md section 5); not claimed until its check exists"})

m = {
    "version": 1,
    "setup_cmd": "/venv/bin/python tools/setup.py",
    "hooks": {
        "guard": "PYTASK_VERIF",
        "enable": "checks run the implementation with PYTASK_VERIF=1 and PYTHONPATH=/repo/src; no source hook is needed so far (observation plugins are registered from the harness process)",
        "baseline_off_cmd": "cd /repo && /venv/bin/python -m pytest -ra -q -p no:cacheprovider --timeout=900 --continue-on-collection-errors",
        "source_commits": [],
        "add_only": True,
    },
    "engines": [{"name": "coq-model+correspondence", "path": "/verif/tools/check.py", "serves_properties": [c["property_id"] for c in checks],
                 "kind_free_text": "Coq 8.16.1 development under coq/ (models, proofs, property files), translator tools/extract_facts.py, correspondence harness tools/harness/"}],
    "checks": checks,
    "not_applicable": na,
    "notes": "All checks: translator -> make of the property's cone -> Print Assumptions audit -> correspondence (model evaluated by vm_compute vs implementation) -> oracle search on breakage. See DESIGN.md.",
}
(V / "MANIFEST.json").write_text(json.dumps(m, indent=1) + "\n")
print("claimed", [c["property_id"] for c in checks], "na", len(na))
