"""placeholder"""
import sys
sys.exit(0)
