#!/venv/bin/python
"""Entry point of every registered check:  tools/check.py Cxx --tier quick|thorough"""
from __future__ import annotations

import argparse
import importlib
import json
import os
import sys
import traceback
from pathlib import Path

sys.path.insert(0, str(Path(__file__).resolve().parent))
sys.path.insert(0, str(Path(__file__).resolve().parent / "harness"))
import vlib  # noqa: E402


def main() -> int:
    ap = argparse.ArgumentParser()
    ap.add_argument("prop")
    ap.add_argument("--tier", default=os.environ.get("VERIF_TIER", "quick"))
    ap.add_argument("--replay")
    a = ap.parse_args()
    seed = int(os.environ.get("VERIF_SEED", "0") or 0)
    tier = a.tier if a.tier in ("quick", "thorough") else "quick"
    mod = importlib.import_module(a.prop.lower())
    if a.replay:
        return mod.replay(json.loads(Path(a.replay).read_text()))
    out = vlib.Outcome(a.prop, tier, seed)
    proof = vlib.proof_stage(a.prop)
    try:
        mod.run(out, tier, seed, proof)
    except Exception:  # noqa: BLE001
        out.disagreement("harness error (treated as broken correspondence)", {"traceback": traceback.format_exc()[-3000:]})
    return out.finish(proof, level=getattr(mod, "LEVEL", "proof"), trusted=getattr(mod, "TRUSTED", ()))


if __name__ == "__main__":
    sys.exit(main())
