#!/venv/bin/python
"""Apply every stored seeded change to /repo in turn, run the checks of its property (quick
tier), restore /repo, and write seeded/RESULTS.md.  Never run while another check or
confirm_seed.py uses /repo.  usage: seed_matrix.py [seed ids...]"""
import json
import os
import re
import subprocess
import sys
from pathlib import Path

V = Path("/verif")
EXTRA = {"C02-2": ["C12"]}
INPLACE = "--inplace" in sys.argv          # the prescribed way: git -C /repo apply ... ; checkout afterwards
only = [a for a in sys.argv[1:] if not a.startswith("--")]
rows = []
assert subprocess.run("git -C /repo status --porcelain", shell=True, capture_output=True, text=True).stdout.strip() == "", "/repo not clean"
WT = "/repo" if INPLACE else "/tmp/seed_matrix_wt"   # default: a scratch worktree of /repo's HEAD, checks pointed at it by VERIF_REPO
if not INPLACE:
    subprocess.run(f"git -C /repo worktree remove --force {WT}", shell=True, capture_output=True)
    assert subprocess.run(f"git -C /repo worktree add -f {WT} HEAD", shell=True, capture_output=True).returncode == 0
for d in sorted((V / "seeded").iterdir()):
    if not (d / "patch.diff").exists() or (only and d.name not in only):
        continue
    meta = json.loads((d / "meta.json").read_text())
    checks = list(dict.fromkeys(meta.get("checks_to_run", [meta["property"]]) + EXTRA.get(d.name, [])))
    a = subprocess.run(f"git -C {WT} apply {d / 'patch.diff'}", shell=True, capture_output=True, text=True)
    if a.returncode != 0:
        rows.append((d.name, "-", "patch does not apply to the current tree: " + a.stderr.strip()[:80], "", ""))
        continue
    try:
        for c in checks:
            p = subprocess.run(f"/venv/bin/python tools/check.py {c} --tier quick", shell=True, capture_output=True, text=True, cwd=V,
                               env=dict(os.environ, VERIF_SEED="0", VERIF_REPO=WT))
            viol = [l for l in p.stdout.splitlines() if l.startswith("VIOLATION")]
            concrete = [l for l in viol if not l.endswith("no-failing-input-found")]
            summ = [l for l in p.stdout.splitlines() if l.startswith("[")]
            rows.append((d.name, c, "DETECTED" if p.returncode != 0 else "missed", "concrete replay" if concrete else ("no-failing-input-found" if viol else ""), summ[-1][:150] if summ else ""))
            print(rows[-1], flush=True)
    finally:
        subprocess.run(f"git -C {WT} checkout -- .", shell=True)
if not INPLACE:
    subprocess.run(f"git -C /repo worktree remove --force {WT}", shell=True, capture_output=True)
out = ["# Seeded changes against the registered checks (quick tier, seed 0)", "",
       "Produced by tools/seed_matrix.py: each patch applied (to a scratch worktree of /repo HEAD, checks pointed at it with VERIF_REPO; or to /repo itself with --inplace), check run, tree restored. Evidence files are rewritten by these runs: re-run the checks on /repo afterwards.", "",
       "| seed | check | result | replay | summary |", "|---|---|---|---|---|"]
out += [f"| {a} | {b} | {c} | {d} | `{e}` |" for a, b, c, d, e in rows]
if not only:
    (V / "seeded" / "RESULTS.md").write_text("\n".join(out) + "\n")
print("\n".join(out))
